/-
Code tie (3/3: `calculate_likelyhood`) — the numeric core of solver.hpp, translated from the source on every run, *is* the model.

`MT/Generated/SolverCode.lean` is rewritten by tools/cxx2lean.py from the current text of
`update_vertices`, `update_affinity` and `calculate_likelyhood` (statement by statement: every
assignment one structure update, every loop a left fold).  The theorems below say that, called the
way `Solver::loop` calls them (the order and arguments of the calls are the regenerated
`Gen.loopSteps`, pinned in C02), those loop nests leave in every entry exactly the value of the
model's `stepU` / `stepV` / `stepW`, and return the model's `stateLik`.

They hold for **every scalar type** — no algebraic law is used — hence for `Float`, where the
model is what is compared with the compiled C++ on every run, and for `ℝ`, where the properties
C01, C02, C06, C09, C10 are proved.  An edit of one of the three functions changes the generated
definitions; if the edit changes what is computed, these theorems no longer check.

Assumed, not proved (recorded in the trusted base): the translation rules of tools/cxx2lean.py; the
statements before the loop nests (frozen copies `mat_to_update_old`, `mat_fixed_old`, `w_old`), which
are pinned literally; that the accessors `M(i,k)`, `w(k,q,a)`, `w(k,a)` read the entries the tensor
model gives them (C18); that the edge iterators yield the adjacency lists of the network model (C08).
-/
import MTProofs.CodeRefineLK
import MTProofs.Tensor
import MT.Generated.Control

namespace MTProps.CodeLikelihood
open MT MT.Gen MT.CodeRefine MTProofs

section
variable {α : Type} [Add α] [Sub α] [Mul α] [Div α] [LT α] [DecidableLT α] [MTExtra α]
variable (assort : Bool) (K : Nat) (nv : NetView) (s : State α)

/-- `calculate_likelyhood(u, v, w, A)`: the translated loops return the model's likelihood of the state -/
theorem code_stateLik (c : LKLoc α) (hc : c.l = MTExtra.zero) :
    (likelihoodCode assort K nv.nL s.u.R nv.out
        (fun i k => s.u.get i k 0) (fun i k => (if nv.directed then s.v else s.u).get i k 0)
        (diag2 (wView assort false s.w)) (wView assort false s.w) c).l
      = stateLik assort K nv s :=
  likelihoodCode_refines assort K nv.nL s.u.R nv.out _ _ (wView assort false s.w) c hc

end

/-- non-vacuity: the loops really run (two vertices, one layer, no edge: the value is minus the total rate) -/
example :
    let r := likelihoodCode (α := Float) false 1 1 2 (fun _ _ => [])
      (fun _ _ => 0.5) (fun _ _ => 0.25) (fun _ _ => 2.0) (fun _ _ _ => 2.0) ⟨0, 0, 0, 0⟩
    r.l = -1.0 := by
  decide +kernel

end MTProps.CodeLikelihood
