/-
C01 — EM ascent: the log-likelihood never decreases between iterations.
Over ℝ, each of the three block updates of the modelled code is a masked minorise–maximise step of the
Poisson log-likelihood (which is multilinear in u, v, w): Jensen on the responsibilities.
`sweep_ascent_directed`: for the four directed variants (general | assortative, any start), under
exactly the property's exception clause — no entry truncated in the step (`NoSnap…`) and every observed
edge with rate > ε in each sub-step (`RatesAbove`) — the likelihood reported by the code's own
`calculate_likelyhood` does not decrease over a sweep.  `affinity_step_ascent`: the w-step alone, also
in undirected mode.  What is missing (`…_partial`): the undirected u-step, where the single matrix plays
both roles and the fixed side is the pre-update copy: not an MM step of the symmetric objective (and
indeed false for asymmetric user-supplied starts: KNOWN_FINDINGS.txt).
Tie: bit-exact trace correspondence + ascent monitor on the implementation's own trajectories.
-/
import MTProofs.AscentTie
import MTProofs.Congr
import MTProps.C02
import MTProofs.Invariants
import MTProofs.Control

namespace MTProps.C01
open MT MTProofs Finset

/-! ### transposed problem (the in-membership step) -/

/-- the rate seen from the target vertex with the transposed affinity view is the same rate -/
theorem rate_transpose (assort : Bool) (K : Nat) (wf wfT : Nat → Nat → Nat → ℝ)
    (hT : ∀ k l a, (assort = false → wfT k l a = wf l k a) ∧ (assort = true → wfT k k a = wf k k a))
    (u v : Nat → Nat → ℝ) (i j a : Nat) :
    rate assort K wfT u v j i a = rate assort K wf v u i j a := by
  unfold rate gsum
  cases assort
  · simp only [Bool.false_eq_true, ↓reduceIte]
    rw [sum_comm]
    apply sum_congr rfl; intro m _
    apply sum_congr rfl; intro l _
    rw [(hT l m a).1 rfl]; ring
  · simp only [↓reduceIte]
    apply sum_congr rfl; intro m _
    rw [(hT m m a).2 rfl]; ring

section directed
variable (assort : Bool) (K L N : Nat) (U V : List Nat) (out inn : Nat → Nat → List Nat)
  (wf wfT : Nat → Nat → Nat → ℝ) (u v : Nat → Nat → ℝ)

/-- structural facts about a directed network view and the two affinity views -/
structure DirWF : Prop where
  innOut : ∀ a i j, (inn a j).count i = (out a i).count j
  transp : ∀ k l a, (assort = false → wfT k l a = wf l k a) ∧ (assort = true → wfT k k a = wf k k a)
  uNodup : U.Nodup
  vNodup : V.Nodup
  uLt : ∀ i ∈ U, i < N
  vLt : ∀ j ∈ V, j < N

/-- the state is non-negative and rows outside the source/target lists are zero (C03 invariants) -/
structure StateOK : Prop where
  uNonneg : ∀ i k, 0 ≤ u i k
  vNonneg : ∀ j q, 0 ≤ v j q
  wNonneg : ∀ k q a, 0 ≤ wf k q a
  wTNonneg : ∀ k q a, 0 ≤ wfT k q a
  uZero : ∀ i k, i < N → i ∉ U → u i k = 0
  vZero : ∀ j q, j < N → j ∉ V → v j q = 0

/-- out-memberships after the u-step, in-memberships after the v-step, affinity after the w-step -/
noncomputable def u1 : Nat → Nat → ℝ := specVEntry assort K L N U V out wf v u
noncomputable def v1 : Nat → Nat → ℝ :=
  specVEntry assort K L N V U inn wfT (u1 assort K L N U V out wf u v) v
noncomputable def w1 : Nat → Nat → Nat → ℝ := fun k q a =>
  specWEntry assort K N U V out (u1 assort K L N U V out wf u v) (v1 assort K L N U V out inn wf wfT u v) wf k q a

/-- the objective of the in-membership step is the same log-likelihood -/
theorem objV_transpose (hwf : DirWF assort N U V out inn wf wfT) (u v : Nat → Nat → ℝ) :
    objV assort K L N (multOf inn) wfT u v = freeLL assort K L N out u v wf := by
  unfold objV freeLL
  apply sum_congr rfl; intro a _
  rw [sum_comm]
  apply sum_congr rfl; intro i _
  apply sum_congr rfl; intro j _
  rw [rate_transpose assort K wf wfT hwf.transp u v i j a]
  unfold multOf
  rw [hwf.innOut a i j]

/-- the objective of the out-membership step -/
theorem objV_direct (u v : Nat → Nat → ℝ) :
    objV assort K L N (multOf out) wf v u = freeLL assort K L N out u v wf := rfl

theorem objW_direct (u v : Nat → Nat → ℝ) (w : Nat → Nat → Nat → ℝ) :
    objW assort K L N (multOf out) u v w = freeLL assort K L N out u v w := rfl

/-- **one sweep does not decrease the log-likelihood** (directed variants), outside the two
admissible exceptions -/
theorem sweep_ascent_free (hwf : DirWF assort N U V out inn wf wfT)
    (hs : StateOK N U V wf wfT u v)
    -- every observed edge has rate > ε in each sub-step
    (hR0 : RatesAbove assort K L N out u v wf)
    (hR1 : RatesAbove assort K L N out (u1 assort K L N U V out wf u v) v wf)
    (hR2 : RatesAbove assort K L N out (u1 assort K L N U V out wf u v) (v1 assort K L N U V out inn wf wfT u v) wf)
    -- no entry was truncated in this sweep
    (hSnapU : ∀ i k, i < N → k < K → maskV assort K L U V wf v u i k →
      ¬ |rawV assort K L N V out wf v u i k| < ε)
    (hSnapV : ∀ j k, j < N → k < K → maskV assort K L V U wfT (u1 assort K L N U V out wf u v) v j k →
      ¬ |rawV assort K L N U inn wfT (u1 assort K L N U V out wf u v) v j k| < ε)
    (hSnapW : ∀ k q a, k < K → q < K → a < L →
      maskW U V (u1 assort K L N U V out wf u v) (v1 assort K L N U V out inn wf wfT u v) wf k q a →
      ¬ |rawW assort K N U V out (u1 assort K L N U V out wf u v) (v1 assort K L N U V out inn wf wfT u v) wf a k q| < ε) :
    freeLL assort K L N out u v wf ≤
      freeLL assort K L N out (u1 assort K L N U V out wf u v) (v1 assort K L N U V out inn wf wfT u v)
        (w1 assort K L N U V out inn wf wfT u v) := by
  set U1 := u1 assort K L N U V out wf u v with hU1
  set V1 := v1 assort K L N U V out inn wf wfT u v with hV1
  -- supports
  have supV : ∀ l, sumL V (fun j => v j l) = ∑ j ∈ range N, v j l := fun l =>
    sumL_support V N hwf.vNodup hwf.vLt _ (fun j hj hn => hs.vZero j l hj hn)
  have u1Zero : ∀ i k, i < N → i ∉ U → U1 i k = 0 := by
    intro i k hi hn
    rw [hU1]; unfold u1
    rw [MTProps.C02.other_rows_untouched assort K L N U V out wf v u i k hn]
    exact hs.uZero i k hi hn
  have supU1 : ∀ l, sumL U (fun i => U1 i l) = ∑ i ∈ range N, U1 i l := fun l =>
    sumL_support U N hwf.uNodup hwf.uLt _ (fun i hi hn => u1Zero i l hi hn)
  have u1Nonneg : ∀ i k, 0 ≤ U1 i k := fun i k =>
    specVEntry_nonneg assort K L N U V out wf v u hs.uNonneg hs.vNonneg hs.wNonneg i k
  have v1Nonneg : ∀ j q, 0 ≤ V1 j q := fun j q =>
    specVEntry_nonneg assort K L N V U inn wfT U1 v hs.vNonneg u1Nonneg hs.wTNonneg j q
  have v1Zero : ∀ j q, j < N → j ∉ V → V1 j q = 0 := by
    intro j q hj hn
    rw [hV1]; unfold v1
    rw [MTProps.C02.other_rows_untouched assort K L N V U inn wfT _ v j q hn]
    exact hs.vZero j q hj hn
  have supV1 : ∀ l, sumL V (fun j => V1 j l) = ∑ j ∈ range N, V1 j l := fun l =>
    sumL_support V N hwf.vNodup hwf.vLt _ (fun j hj hn => v1Zero j l hj hn)
  -- u-step
  have step1 : freeLL assort K L N out u v wf ≤ freeLL assort K L N out U1 v wf := by
    have := specV_ascent assort K L N U V out wf v u supV hs.uNonneg hs.vNonneg hs.wNonneg
      (fun a i j ha hi hj hc => hR0 a i j ha hi hj hc) hSnapU
    exact this
  -- v-step, on the transposed problem
  have step2 : freeLL assort K L N out U1 v wf ≤ freeLL assort K L N out U1 V1 wf := by
    have := specV_ascent assort K L N V U inn wfT U1 v supU1 hs.vNonneg u1Nonneg hs.wTNonneg
      (fun a j i ha hj hi hc => by
        rw [rate_transpose assort K wf wfT hwf.transp U1 v i j a]
        exact hR1 a i j ha hi hj (by rw [← hwf.innOut a i j]; exact hc))
      hSnapV
    rw [objV_transpose assort K L N U V out inn wf wfT hwf U1 v,
      objV_transpose assort K L N U V out inn wf wfT hwf U1 _] at this
    exact this
  -- w-step
  have step3 : freeLL assort K L N out U1 V1 wf ≤
      freeLL assort K L N out U1 V1 (w1 assort K L N U V out inn wf wfT u v) := by
    have := specW_ascent assort K L N U V out U1 V1 wf supU1 supV1 u1Nonneg v1Nonneg hs.wNonneg
      (fun a i j ha hi hj hc => hR2 a i j ha hi hj hc) hSnapW
    exact this
  exact le_trans step1 (le_trans step2 step3)

/-- … and therefore the likelihood that the code itself evaluates (guarded) does not decrease, when
every observed edge also has rate > ε after the sweep -/
theorem sweep_ascent_directed (hwf : DirWF assort N U V out inn wf wfT)
    (hs : StateOK N U V wf wfT u v)
    (hR0 : RatesAbove assort K L N out u v wf)
    (hR1 : RatesAbove assort K L N out (u1 assort K L N U V out wf u v) v wf)
    (hR2 : RatesAbove assort K L N out (u1 assort K L N U V out wf u v) (v1 assort K L N U V out inn wf wfT u v) wf)
    (hR3 : RatesAbove assort K L N out (u1 assort K L N U V out wf u v) (v1 assort K L N U V out inn wf wfT u v)
      (w1 assort K L N U V out inn wf wfT u v))
    (hSnapU : ∀ i k, i < N → k < K → maskV assort K L U V wf v u i k →
      ¬ |rawV assort K L N V out wf v u i k| < ε)
    (hSnapV : ∀ j k, j < N → k < K → maskV assort K L V U wfT (u1 assort K L N U V out wf u v) v j k →
      ¬ |rawV assort K L N U inn wfT (u1 assort K L N U V out wf u v) v j k| < ε)
    (hSnapW : ∀ k q a, k < K → q < K → a < L →
      maskW U V (u1 assort K L N U V out wf u v) (v1 assort K L N U V out inn wf wfT u v) wf k q a →
      ¬ |rawW assort K N U V out (u1 assort K L N U V out wf u v) (v1 assort K L N U V out inn wf wfT u v) wf a k q| < ε) :
    poissonLL assort K L N out u v wf ≤
      poissonLL assort K L N out (u1 assort K L N U V out wf u v) (v1 assort K L N U V out inn wf wfT u v)
        (w1 assort K L N U V out inn wf wfT u v) := by
  rw [poissonLL_eq_free _ _ _ _ _ _ _ _ hR0, poissonLL_eq_free _ _ _ _ _ _ _ _ hR3]
  exact sweep_ascent_free assort K L N U V out inn wf wfT u v hwf hs hR0 hR1 hR2 hSnapU hSnapV hSnapW

end directed

/-! ### the same statement on the model's states -/

section model
variable (assort : Bool) (K : Nat) (nv : NetView) (s : State ℝ)

/-- what a directed network view provides (true of every view built from an edge list) -/
structure ViewOK (N : Nat) : Prop where
  dir : nv.directed = true
  wf : MTProps.C02.ViewWF nv N
  innOut : ∀ a i j, (nv.inn a j).count i = (nv.out a i).count j
  uNodup : nv.uList.Nodup
  vNodup : nv.vList.Nodup
  uLt : ∀ i ∈ nv.uList, i < N
  vLt : ∀ j ∈ nv.vList, j < N

/-- shape of a directed state -/
structure DirShape : Prop where
  vR : s.v.R = s.u.R
  wR : s.w.R = K
  wT : s.w.T = nv.nL

noncomputable abbrev uA (s : State ℝ) : Nat → Nat → ℝ := fun i k => s.u.get i k 0
noncomputable abbrev vA (s : State ℝ) : Nat → Nat → ℝ := fun i k => s.v.get i k 0

/-- the two affinity views are transposes of each other -/
theorem views_transp (W : Tens ℝ) :
    ∀ k l a, (assort = false → wView assort true W k l a = wView assort false W l k a) ∧
      (assort = true → wView assort true W k k a = wView assort false W k k a) := by
  intro k l a
  constructor
  · intro h; subst h; rfl
  · intro h; subst h; rfl

/-- the factors after one model sweep are the published updates u', v', w' on every valid index -/
theorem sweep_factors (hv : ViewOK nv s.u.R) (hsh : DirShape K nv s) :
    (sweep assort K nv s).u.R = s.u.R ∧
    MAgree K s.u.R (uA (sweep assort K nv s))
      (u1 assort K nv.nL s.u.R nv.uList nv.vList nv.out (wView assort false s.w) (uA s) (vA s)) ∧
    MAgree K s.u.R (vA (sweep assort K nv s))
      (v1 assort K nv.nL s.u.R nv.uList nv.vList nv.out nv.inn (wView assort false s.w) (wView assort true s.w)
        (uA s) (vA s)) ∧
    WAgree assort K nv.nL (wView assort false (sweep assort K nv s).w)
      (w1 assort K nv.nL s.u.R nv.uList nv.vList nv.out nv.inn (wView assort false s.w) (wView assort true s.w)
        (uA s) (vA s)) := by
  have hd := hv.dir
  set s1 := stepU assort K nv s with hs1
  set s2 := stepV assort K nv s1 with hs2
  have hR1 : s1.u.R = s.u.R := rfl
  have hvR1 : s1.v.R = s.u.R := hsh.vR
  have hR2 : s2.u.R = s.u.R := by
    rw [hs2]; unfold stepV; split <;> rfl
  -- u
  have hu1 : MAgree K s.u.R (uA s1)
      (u1 assort K nv.nL s.u.R nv.uList nv.vList nv.out (wView assort false s.w) (uA s) (vA s)) := by
    intro i k hi hk
    show s1.u.get i k 0 = _
    rw [hs1, MTProps.C02.stepU_entry assort K nv s hv.wf hi hk]
    simp only [hd, ↓reduceIte]
    rfl
  have hu2 : uA s2 = uA s1 := by
    rw [hs2]; unfold stepV; split <;> rfl
  -- v
  have hv2 : MAgree K s.u.R (vA s2)
      (v1 assort K nv.nL s.u.R nv.uList nv.vList nv.out nv.inn (wView assort false s.w) (wView assort true s.w)
        (uA s) (vA s)) := by
    intro j q hj hq
    show s2.v.get j q 0 = _
    have hwf' : MTProps.C02.ViewWF nv s1.v.R := by rw [hvR1]; exact hv.wf
    rw [hs2, MTProps.C02.stepV_entry assort K nv s1 hd hwf' (by rw [hvR1]; exact hj) hq, hvR1]
    unfold v1
    exact specVEntry_congr assort K nv.nL s.u.R nv.vList nv.uList nv.inn hv.uLt
      (fun _ _ _ _ _ _ _ => rfl) hu1 (fun _ _ _ _ => rfl) hj hq
  -- w
  have hw3 : WAgree assort K nv.nL (wView assort false (stepW assort K nv s2).w)
      (w1 assort K nv.nL s.u.R nv.uList nv.vList nv.out nv.inn (wView assort false s.w) (wView assort true s.w)
        (uA s) (vA s)) := by
    intro k q a hk hq ha hdiag
    have hwf2 : MTProps.C02.ViewWF nv s2.u.R := by rw [hR2]; exact hv.wf
    have hw2 : s2.w = s.w := by
      rw [hs2]; unfold stepV; split <;> rfl
    have hentry : wView assort false (stepW assort K nv s2).w k q a =
        specWEntry assort K s2.u.R nv.uList nv.vList nv.out (uA s2)
          (fun i k => (if nv.directed then s2.v else s2.u).get i k 0) (wView assort false s2.w) k q a := by
      cases assort
      · exact MTProps.C02.stepW_entry_general K nv s2 hwf2 hk hq ha
      · have := hdiag rfl
        subst this
        exact (MTProps.C02.stepW_entry_assortative K nv s2 hwf2 hk ha).1
    rw [hentry, hR2, hw2]
    simp only [hd, ↓reduceIte]
    unfold w1
    exact specWEntry_congr assort K nv.nL s.u.R nv.uList nv.vList nv.out hv.uLt hv.vLt
      (fun _ _ _ _ _ _ _ => rfl) (by rw [hu2]; exact hu1) hv2 hk hq ha hdiag
  refine ⟨?_, ?_, ?_, ?_⟩
  · show (stepW assort K nv s2).u.R = s.u.R
    exact hR2
  · show MAgree K s.u.R (uA (stepW assort K nv s2)) _
    have : uA (stepW assort K nv s2) = uA s2 := rfl
    rw [this, hu2]; exact hu1
  · show MAgree K s.u.R (vA (stepW assort K nv s2)) _
    exact hv2
  · exact hw3

/-- **C01 on the model**: one `sweep` of a directed variant does not decrease the likelihood that the
model's `calculate_likelyhood` reports, outside the two admissible exceptions.  (All hypotheses are
about the state before the sweep and the published updates computed from it.) -/
theorem model_sweep_ascent_directed (hv : ViewOK nv s.u.R) (hsh : DirShape K nv s)
    (hs : StateOK s.u.R nv.uList nv.vList (wView assort false s.w) (wView assort true s.w) (uA s) (vA s))
    (hR0 : RatesAbove assort K nv.nL s.u.R nv.out (uA s) (vA s) (wView assort false s.w))
    (hR1 : RatesAbove assort K nv.nL s.u.R nv.out
      (u1 assort K nv.nL s.u.R nv.uList nv.vList nv.out (wView assort false s.w) (uA s) (vA s)) (vA s)
      (wView assort false s.w))
    (hR2 : RatesAbove assort K nv.nL s.u.R nv.out
      (u1 assort K nv.nL s.u.R nv.uList nv.vList nv.out (wView assort false s.w) (uA s) (vA s))
      (v1 assort K nv.nL s.u.R nv.uList nv.vList nv.out nv.inn (wView assort false s.w) (wView assort true s.w) (uA s) (vA s))
      (wView assort false s.w))
    (hR3 : RatesAbove assort K nv.nL s.u.R nv.out
      (u1 assort K nv.nL s.u.R nv.uList nv.vList nv.out (wView assort false s.w) (uA s) (vA s))
      (v1 assort K nv.nL s.u.R nv.uList nv.vList nv.out nv.inn (wView assort false s.w) (wView assort true s.w) (uA s) (vA s))
      (w1 assort K nv.nL s.u.R nv.uList nv.vList nv.out nv.inn (wView assort false s.w) (wView assort true s.w) (uA s) (vA s)))
    (hSnapU : ∀ i k, i < s.u.R → k < K →
      maskV assort K nv.nL nv.uList nv.vList (wView assort false s.w) (vA s) (uA s) i k →
      ¬ |rawV assort K nv.nL s.u.R nv.vList nv.out (wView assort false s.w) (vA s) (uA s) i k| < ε)
    (hSnapV : ∀ j k, j < s.u.R → k < K →
      maskV assort K nv.nL nv.vList nv.uList (wView assort true s.w)
        (u1 assort K nv.nL s.u.R nv.uList nv.vList nv.out (wView assort false s.w) (uA s) (vA s)) (vA s) j k →
      ¬ |rawV assort K nv.nL s.u.R nv.uList nv.inn (wView assort true s.w)
        (u1 assort K nv.nL s.u.R nv.uList nv.vList nv.out (wView assort false s.w) (uA s) (vA s)) (vA s) j k| < ε)
    (hSnapW : ∀ k q a, k < K → q < K → a < nv.nL →
      maskW nv.uList nv.vList
        (u1 assort K nv.nL s.u.R nv.uList nv.vList nv.out (wView assort false s.w) (uA s) (vA s))
        (v1 assort K nv.nL s.u.R nv.uList nv.vList nv.out nv.inn (wView assort false s.w) (wView assort true s.w) (uA s) (vA s))
        (wView assort false s.w) k q a →
      ¬ |rawW assort K s.u.R nv.uList nv.vList nv.out
        (u1 assort K nv.nL s.u.R nv.uList nv.vList nv.out (wView assort false s.w) (uA s) (vA s))
        (v1 assort K nv.nL s.u.R nv.uList nv.vList nv.out nv.inn (wView assort false s.w) (wView assort true s.w) (uA s) (vA s))
        (wView assort false s.w) a k q| < ε) :
    stateLik assort K nv s ≤ stateLik assort K nv (sweep assort K nv s) := by
  obtain ⟨hR, hu, hvv, hw⟩ := sweep_factors assort K nv s hv hsh
  have hdw : DirWF assort s.u.R nv.uList nv.vList nv.out nv.inn (wView assort false s.w) (wView assort true s.w) :=
    ⟨hv.innOut, views_transp assort s.w, hv.uNodup, hv.vNodup, hv.uLt, hv.vLt⟩
  have hmain := sweep_ascent_directed assort K nv.nL s.u.R nv.uList nv.vList nv.out nv.inn
    (wView assort false s.w) (wView assort true s.w) (uA s) (vA s) hdw hs hR0 hR1 hR2 hR3 hSnapU hSnapV hSnapW
  have e0 : stateLik assort K nv s = poissonLL assort K nv.nL s.u.R nv.out (uA s) (vA s) (wView assort false s.w) := by
    unfold stateLik
    simp only [hv.dir, ↓reduceIte]
    exact MTProofs.likelihood_eq_poisson assort K nv.nL s.u.R nv.out _ _ _
  have e1 : stateLik assort K nv (sweep assort K nv s) =
      poissonLL assort K nv.nL s.u.R nv.out (uA (sweep assort K nv s)) (vA (sweep assort K nv s))
        (wView assort false (sweep assort K nv s).w) := by
    unfold stateLik
    simp only [hv.dir, ↓reduceIte, hR]
    exact MTProofs.likelihood_eq_poisson assort K nv.nL s.u.R nv.out _ _ _
  rw [e0, e1, MTProofs.poissonLL_congr assort K nv.nL s.u.R nv.out hw hu hvv]
  exact hmain

end model

/-! ### every pair of consecutive iterations of a realization -/

section trajectory
variable (assort : Bool) (K : Nat) (nv : NetView)

/-- the step from state `s` is free of both admissible exceptions: every observed edge has rate > ε in
each sub-step, and no entry is truncated by any of the three updates -/
structure ExceptionFree (s : State ℝ) : Prop where
  r0 : RatesAbove assort K nv.nL s.u.R nv.out (uA s) (vA s) (wView assort false s.w)
  r1 : RatesAbove assort K nv.nL s.u.R nv.out
    (u1 assort K nv.nL s.u.R nv.uList nv.vList nv.out (wView assort false s.w) (uA s) (vA s)) (vA s)
    (wView assort false s.w)
  r2 : RatesAbove assort K nv.nL s.u.R nv.out
    (u1 assort K nv.nL s.u.R nv.uList nv.vList nv.out (wView assort false s.w) (uA s) (vA s))
    (v1 assort K nv.nL s.u.R nv.uList nv.vList nv.out nv.inn (wView assort false s.w) (wView assort true s.w) (uA s) (vA s))
    (wView assort false s.w)
  r3 : RatesAbove assort K nv.nL s.u.R nv.out
    (u1 assort K nv.nL s.u.R nv.uList nv.vList nv.out (wView assort false s.w) (uA s) (vA s))
    (v1 assort K nv.nL s.u.R nv.uList nv.vList nv.out nv.inn (wView assort false s.w) (wView assort true s.w) (uA s) (vA s))
    (w1 assort K nv.nL s.u.R nv.uList nv.vList nv.out nv.inn (wView assort false s.w) (wView assort true s.w) (uA s) (vA s))
  snapU : ∀ i k, i < s.u.R → k < K →
    maskV assort K nv.nL nv.uList nv.vList (wView assort false s.w) (vA s) (uA s) i k →
    ¬ |rawV assort K nv.nL s.u.R nv.vList nv.out (wView assort false s.w) (vA s) (uA s) i k| < ε
  snapV : ∀ j k, j < s.u.R → k < K →
    maskV assort K nv.nL nv.vList nv.uList (wView assort true s.w)
      (u1 assort K nv.nL s.u.R nv.uList nv.vList nv.out (wView assort false s.w) (uA s) (vA s)) (vA s) j k →
    ¬ |rawV assort K nv.nL s.u.R nv.uList nv.inn (wView assort true s.w)
      (u1 assort K nv.nL s.u.R nv.uList nv.vList nv.out (wView assort false s.w) (uA s) (vA s)) (vA s) j k| < ε
  snapW : ∀ k q a, k < K → q < K → a < nv.nL →
    maskW nv.uList nv.vList
      (u1 assort K nv.nL s.u.R nv.uList nv.vList nv.out (wView assort false s.w) (uA s) (vA s))
      (v1 assort K nv.nL s.u.R nv.uList nv.vList nv.out nv.inn (wView assort false s.w) (wView assort true s.w) (uA s) (vA s))
      (wView assort false s.w) k q a →
    ¬ |rawW assort K s.u.R nv.uList nv.vList nv.out
      (u1 assort K nv.nL s.u.R nv.uList nv.vList nv.out (wView assort false s.w) (uA s) (vA s))
      (v1 assort K nv.nL s.u.R nv.uList nv.vList nv.out nv.inn (wView assort false s.w) (wView assort true s.w) (uA s) (vA s))
      (wView assort false s.w) a k q| < ε

/-- a well-formed directed state (C03's invariant) provides what the ascent theorem needs -/
theorem stateOK_of_wf (s : State ℝ) (hd : nv.directed = true) (h : WFState assort K nv s) :
    DirShape K nv s ∧
    StateOK s.u.R nv.uList nv.vList (wView assort false s.w) (wView assort true s.w) (uA s) (vA s) := by
  obtain ⟨hvR, hvC, hvT⟩ := h.vShape hd
  refine ⟨⟨hvR, h.wR, h.wT⟩, ⟨fun i k => h.uNonneg i k 0, fun j q => h.vNonneg j q 0,
    fun k q a => wView_nonneg assort false s.w h.wNonneg k q a,
    fun k q a => wView_nonneg assort true s.w h.wNonneg k q a, ?_, ?_⟩⟩
  · intro i k hi hn
    by_cases hk : k < K
    · exact h.uZero i k hi hk hn
    · exact get_col_oob s.u h.uSized h.uT hi (by rw [h.uC]; omega)
  · intro j q hj hn
    by_cases hq : q < K
    · exact h.vZero hd j q hj hq hn
    · exact get_col_oob s.v (h.vSized hd) hvT (by rw [hvR]; exact hj) (by rw [hvC]; omega)

/-- **C01 along a realization**: for every pair of consecutive iterations `n → n+1` of a directed
variant whose step is free of the two admissible exceptions, the likelihood of the factors does not
decrease; the invariant of C03 supplies everything else -/
theorem realization_ascent (s0 : State ℝ) (hv : ViewOK nv s0.u.R) (hwf0 : WFState assort K nv s0) (n : Nat)
    (hfree : ExceptionFree assort K nv (traj assort K nv s0 n)) :
    stateLik assort K nv (traj assort K nv s0 n) ≤ stateLik assort K nv (traj assort K nv s0 (n + 1)) := by
  obtain ⟨hwfn, hRn⟩ := iterate_wf assort K nv s0 n hv.wf hwf0
  have hvn : ViewOK nv (traj assort K nv s0 n).u.R := by
    show ViewOK nv ((sweep assort K nv)^[n] s0).u.R
    rw [hRn]; exact hv
  obtain ⟨hsh, hok⟩ := stateOK_of_wf assort K nv _ hv.dir hwfn
  rw [traj_succ]
  exact model_sweep_ascent_directed assort K nv _ hvn hsh hok hfree.r0 hfree.r1 hfree.r2 hfree.r3
    hfree.snapU hfree.snapV hfree.snapW

end trajectory

/-! ### every directed network built from an edge list satisfies `ViewOK` -/

theorem built_view_ok {β ω : Type} [DecidableEq β] [Weight ω] (starts ends : List β) (weights : List ω) :
    ViewOK (build true starts ends weights).view (build true starts ends weights).labels.length := by
  set n := build true starts ends weights with hn
  have hrecs := build_recs_lt true starts ends weights
  have hnV : n.nV ≤ n.labels.length := by unfold Net.nV; split <;> omega
  have hund : (List.range n.nV).Nodup := List.nodup_range
  refine ⟨rfl, MTProps.C02.built_view_wf true starts ends weights, ?_, hund.filter _, ?_, ?_, ?_⟩
  · intro a i j
    rw [view_inn, view_out]
    have hdir : n.directed = true := rfl
    simp only [hdir, true_and]
    by_cases ha : a < n.nL
    · have hnV' : n.nV = n.labels.length := by unfold Net.nV; rw [if_neg (by omega)]
      by_cases hi : i < n.nV <;> by_cases hj : j < n.nV
      · simp only [ha, hi, hj, and_self, ↓reduceIte]
        exact inn_count_eq_out_count n hdir a i j
      · -- j out of range: nothing points to it
        simp only [ha, hi, hj, and_false, and_self, ↓reduceIte, List.count_nil]
        symm
        rw [List.count_eq_zero]
        intro hmem
        have h1 : j < n.labels.length := out_lt_of_recs n _ hrecs a i j hmem
        omega
      · simp only [ha, hi, hj, and_false, and_self, ↓reduceIte, List.count_nil]
        rw [List.count_eq_zero]
        intro hmem
        have h1 : i < n.labels.length := inn_lt_of_recs n _ hrecs a j i hmem
        omega
      · simp [ha, hi, hj]
    · simp [ha]
  · show n.vList.Nodup
    unfold Net.vList; split
    · exact hund.filter _
    · exact hund.filter _
  · intro i hi
    have : i ∈ n.uList := hi
    have := (List.mem_filter.mp this).1
    rw [List.mem_range] at this; omega
  · intro j hj
    have hj' : j ∈ n.vList := hj
    unfold Net.vList at hj'; split at hj'
    · have := (List.mem_filter.mp hj').1; rw [List.mem_range] at this; omega
    · have := (List.mem_filter.mp hj').1; rw [List.mem_range] at this; omega

/-! ### the affinity step alone (also undirected) -/

/-- **affinity step ascent**, for any memberships (in undirected mode `v = u`, `V = U`) -/
theorem affinity_step_ascent (assort : Bool) (K L N : Nat) (U V : List Nat) (out : Nat → Nat → List Nat)
    (u v : Nat → Nat → ℝ) (w : Nat → Nat → Nat → ℝ)
    (hU : ∀ k, sumL U (fun i => u i k) = ∑ i ∈ range N, u i k)
    (hV : ∀ q, sumL V (fun j => v j q) = ∑ j ∈ range N, v j q)
    (hu : ∀ i k, 0 ≤ u i k) (hv : ∀ j q, 0 ≤ v j q) (hw : ∀ k q a, 0 ≤ w k q a)
    (hR : RatesAbove assort K L N out u v w)
    (hNoSnap : ∀ k q a, k < K → q < K → a < L → maskW U V u v w k q a →
      ¬ |rawW assort K N U V out u v w a k q| < ε) :
    freeLL assort K L N out u v w ≤
      freeLL assort K L N out u v (fun k q a => specWEntry assort K N U V out u v w k q a) :=
  specW_ascent assort K L N U V out u v w hU hV hu hv hw (fun a i j ha hi hj hc => hR a i j ha hi hj hc) hNoSnap

/-- what is proved about the undirected sweep: the w-step ascends (above, with `v := u'`, `V := U`);
the u-step is *not* covered — with the single matrix in both roles and the other role frozen at the old
value it is not an MM step of the symmetric objective.  The full statement for undirected mode is
therefore kept only as this partial one. -/
theorem sweep_ascent_undirected_partial (assort : Bool) (K L N : Nat) (U : List Nat) (out : Nat → Nat → List Nat)
    (u' : Nat → Nat → ℝ) (w : Nat → Nat → Nat → ℝ)
    (hU : ∀ k, sumL U (fun i => u' i k) = ∑ i ∈ range N, u' i k)
    (hu : ∀ i k, 0 ≤ u' i k) (hw : ∀ k q a, 0 ≤ w k q a)
    (hR : RatesAbove assort K L N out u' u' w)
    (hNoSnap : ∀ k q a, k < K → q < K → a < L → maskW U U u' u' w k q a →
      ¬ |rawW assort K N U U out u' u' w a k q| < ε) :
    freeLL assort K L N out u' u' w ≤
      freeLL assort K L N out u' u' (fun k q a => specWEntry assort K N U U out u' u' w k q a) :=
  affinity_step_ascent assort K L N U U out u' u' w hU hU hu hu hw hR hNoSnap

end MTProps.C01
