/-
Code tie (control) — the stopping logic of `Solver::loop`, translated from solver.hpp on every run
(tools/cxx2lean.py: everything after the three update calls, statement by statement), is the model's
`ctlStep`, on which the stopping rule (C05) and the cadence of the reported likelihood (C06) are proved.
Holds for every scalar type.  The update calls before it are pinned literally (and as `Gen.loopSteps`).
-/
import MTProofs.CodeRefineCtl

namespace MTProps.CodeControl
open MT MT.Gen MT.CodeRefine

section
variable {α : Type} [Add α] [Sub α] [Mul α] [Div α] [LT α] [DecidableLT α] [MTExtra α]

/-- one call of `Solver::loop` leaves `(iteration, coincide, L2)` and returns the reason exactly as the
model's `ctlStep` does — whatever the likelihood evaluation yields, whatever the limits -/
theorem code_ctlStep (lNew : α) (nConv maxIt : Nat) (c : Ctl α) (junk : α) (r0 : Nat) :
    let s := loopControlCode lNew nConv maxIt ⟨c.iteration, c.coincide, c.L2, junk, r0⟩
    let m := ctlStep maxIt nConv c lNew
    s.iteration = m.1.iteration ∧ s.coincide = m.1.coincide ∧ s.L2 = m.1.L2 ∧ s.ret = m.2.code :=
  loopControlCode_refines lNew nConv maxIt c junk r0

/-- the likelihood is (re)evaluated exactly when `iteration % 10 = 0`: otherwise `L2` and the counter are
left alone by the code -/
theorem code_no_evaluation_between (lNew : α) (nConv maxIt : Nat) (c : Ctl α) (junk : α) (r0 : Nat)
    (h : c.iteration % 10 ≠ 0) :
    let s := loopControlCode lNew nConv maxIt ⟨c.iteration, c.coincide, c.L2, junk, r0⟩
    s.L2 = c.L2 ∧ s.coincide = c.coincide ∧ s.iteration = c.iteration + 1 := by
  obtain ⟨h1, h2, h3, _⟩ := loopControlCode_refines lNew nConv maxIt c junk r0
  refine ⟨?_, ?_, ?_⟩
  · rw [h3]; simp [ctlStep, h]
  · rw [h2]; simp [ctlStep, h]
  · rw [h1]; simp [ctlStep]

end

/-- non-vacuity: the first sweep of a realization (counters 0, `L2 = lowest()`) with limit 1 stops with
MAX_ITER after one sweep; with one required convergence and a repeated value it stops CONVERGED -/
example :
    (loopControlCode (α := Float) (-3.5) 10 1 ⟨0, 0, MTExtra.lowest, 0, 0⟩).ret = 1 ∧
    (loopControlCode (α := Float) (-3.5) 10 1 ⟨0, 0, MTExtra.lowest, 0, 0⟩).iteration = 1 ∧
    (loopControlCode (α := Float) (-3.5) 1 50 ⟨10, 0, -3.5, 0, 0⟩).ret = 2 := by
  refine ⟨?_, ?_, ?_⟩ <;> decide +kernel

end MTProps.CodeControl
