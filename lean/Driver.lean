/-
mtdriver — runs the executable model (Float instance) on the line protocol.
One case per input line: `<id> <op> <args…>`; one output line per case:
`<id> key=v,v,… key=…`.  See /verif/harness/harness.cpp for the same ops on the C++.
-/
import MT.Proto
import MT.Cli
import MT.CliMain

open MT MT.Proto

/-- a weight token of any of the three supported weight types -/
inductive AnyW where
  | n (x : Nat) | i (x : Int) | f (x : Float)

instance : Weight AnyW where
  units
    | .n x => Weight.units x
    | .i x => Weight.units x
    | .f x => Weight.units x

def kv (k : String) (v : String) : String := k ++ "=" ++ v

def tensF (t : Tens Float) : String := showFs t.data.toList

structure Recs where
  nL : Nat
  starts : List String
  ends : List String
  weights : List AnyW

/-- `<wt> <nrec> <L> (src dst w_1 … w_L)*` -/
def recsP : P Recs := do
  let wt ← tok
  let n ← nat
  let nL ← nat
  let mut starts : Array String := #[]
  let mut ends : Array String := #[]
  let mut ws : Array AnyW := #[]
  for _ in [0:n] do
    starts := starts.push (← tok)
    ends := ends.push (← tok)
    for _ in [0:nL] do
      let w ← match wt with
        | "u" => do pure (AnyW.n (← nat))
        | "l" => do pure (AnyW.i (← int))
        | "r" => do pure (AnyW.f (← flt))
        | _ => throw s!"bad weight type {wt}"
      ws := ws.push w
  pure { nL, starts := starts.toList, ends := ends.toList, weights := ws.toList }

def opIdx : P (List String) := do
  let R ← nat; let C ← nat; let T ← nat
  let mut pos : Array Nat := #[]
  for i in [0:R] do
    for j in [0:C] do
      for a in [0:T] do
        pos := pos.push (Gen.getIndexSrc R C T i j a)
  -- Transpose<Tensor>(i,j,a) for i<C, j<R reads the position of …
  let mut tpos : Array Nat := #[]
  for i in [0:C] do
    for j in [0:R] do
      for a in [0:T] do
        let (i', j', a') := Gen.transposeArgs3 i j a
        tpos := tpos.push (Gen.getIndexSrc R C T i' j' a')
  -- Matrix(R,C)(i,j) and DiagonalTensor(R,T)(i,a)
  let mut mpos : Array Nat := #[]
  for i in [0:R] do
    for j in [0:C] do
      mpos := mpos.push (Gen.getIndexSrc R C 1 i j 0)
  let mut dpos : Array Nat := #[]
  for i in [0:R] do
    for a in [0:T] do
      dpos := dpos.push (Gen.getIndexSrc R 1 T i 0 a)
  -- the two-index form `t(i,j)` of a tensor (the layer argument defaults to 0) and of its transposed view
  let mut pos2 : Array Nat := #[]
  for i in [0:R] do
    for j in [0:C] do
      pos2 := pos2.push (Gen.getIndexSrc R C T i j 0)
  let mut tpos2 : Array Nat := #[]
  for i in [0:C] do
    for j in [0:R] do
      let (i', j') := Gen.transposeArgs2 false i j
      tpos2 := tpos2.push (Gen.getIndexSrc R C T i' j' 0)
  pure [kv "pos" (showNats pos.toList), kv "tpos" (showNats tpos.toList),
        kv "mpos" (showNats mpos.toList), kv "dpos" (showNats dpos.toList),
        kv "pos2" (showNats pos2.toList), kv "tpos2" (showNats tpos2.toList),
        kv "copies" "1",   -- a copy (constructed, assigned, moved) is the same tensor: the model's tensors are values
        kv "size" (toString (R * C * T))]

/-- `idxr kind R C T R2 C2 T2` — `resize` gives a zero tensor of the new shape (tensor.hpp:117-125);
positions of the in-range elements in the new layout -/
def opIdxr : P (List String) := do
  let kind ← tok
  let _R ← nat; let _C ← nat; let _T ← nat
  let R2 ← nat; let C2 ← nat; let T2 ← nat
  let (R, C, T) := match kind with
    | "t" => (R2, C2, T2)
    | "m" => (R2, C2, 1)
    | "s" => (R2, R2, T2)
    | _ => (R2, 1, T2)
  let t : Tens Float := Tens.zeros R C T
  let mut pos : Array Nat := #[]
  for i in [0:R] do
    for j in [0:C] do
      for a in [0:T] do
        pos := pos.push (Gen.getIndexSrc t.R t.C t.T i j a)
  pure [kv "pos" (showNats pos.toList), kv "dims" s!"{t.R},{t.C},{t.T}", kv "size" (toString t.size)]

def netFields (n : Net String) : List String := Id.run do
  let mut out : Array String := #[]
  out := out.push (kv "N" (toString n.nV))
  out := out.push (kv "L" (toString n.nL))
  out := out.push (kv "labels" (",".intercalate (if n.nL = 0 then [] else n.labels)))
  out := out.push (kv "E" (toString n.nedges))
  out := out.push (kv "U" (showNats n.uList))
  out := out.push (kv "V" (showNats n.vList))
  for a in [0:n.nL] do
    for i in [0:n.nV] do
      out := out.push (kv s!"out.{a}.{i}" (showNats (n.out a i)))
      if n.directed then
        out := out.push (kv s!"in.{a}.{i}" (showNats (n.inn a i)))
  return out.toList

def opNet : P (List String) := do
  let dir ← bool
  let _lt ← tok
  let rc ← recsP
  let n := build dir rc.starts rc.ends rc.weights
  pure (netFields n ++ [kv "numv" (toString (numVertices rc.starts rc.ends))])

def reasonOfCode (c : Nat) : Reason :=
  if c = 1 then .maxIter else if c = 2 then .converged else .noTermination

/-- `sweep dir assort K lt <recs> N u… v… w… it0 co0 L2_0 maxit nconv` -/
def opSweep : P (List String) := do
  let dir ← bool; let assort ← bool; let K ← nat
  let _lt ← tok
  let rc ← recsP
  let N ← nat
  let u ← flts; let v ← flts; let w ← flts
  let it0 ← nat; let co0 ← nat; let l20 ← flt; let maxIt ← nat; let nConv ← nat
  let net := build dir rc.starts rc.ends rc.weights
  let nv := net.view
  let s0 : State Float :=
    { u := Tens.ofData N K 1 u.toArray,
      v := if dir then Tens.ofData N K 1 v.toArray else Tens.zeros 0 0 0,
      w := Tens.ofData K (if assort then 1 else K) rc.nL w.toArray }
  let s1 := stepU assort K nv s0
  let s2 := stepV assort K nv s1
  let s3 := stepW assort K nv s2
  let r := loopStep assort K nv maxIt nConv (fun _ s => stateLik assort K nv s) s0
            { iteration := it0, coincide := co0, L2 := l20 }
  pure [kv "u1" (tensF s1.u), kv "v1" (if dir then tensF s2.v else ""), kv "w1" (tensF s3.w),
        kv "lik0" (showF (stateLik assort K nv s0)), kv "lik1" (showF (stateLik assort K nv s3)),
        kv "loop_u" (tensF r.1.u), kv "loop_v" (if dir then tensF r.1.v else ""),
        kv "loop_w" (tensF r.1.w), kv "loop_L2" (showF r.2.1.L2),
        kv "loop_it" (toString r.2.1.iteration), kv "loop_co" (toString r.2.1.coincide),
        kv "loop_reason" (toString r.2.2.code)]

/-- `run dir assort init K lt <recs> r maxit nconv seed prior tr nscript script… naff aff…` -/
def opRun : P (List String) := do
  let dir ← bool; let assort ← bool
  let ik ← match (← tok) with
    | "r" => pure InitKind.random
    | "f" => pure InitKind.fromInitial
    | "x" => pure InitKind.exact
    | t => throw s!"bad init kind {t}"
  let K ← nat
  let _lt ← tok
  let rc ← recsP
  let r ← nat; let maxIt ← nat; let nConv ← nat
  let seed ← int
  let prior ← flt
  let tr ← nat
  let script ← flts
  let aff ← flts
  let vshape ← optNat 0
  let _lprior ← optNat 0
  let _ushape ← optNat 0   -- shape of the caller's out-membership container (N*K elements): the result does not depend on it   -- prior contents of the caller's label container: the result does not depend on them
  let N := numVertices rc.starts rc.ends
  let (vr, vc) : Nat × Nat := match vshape with
    | 1 => (K, N) | 2 => (N * K, 1) | 3 => (0, 0) | 4 => (N + 1, K) | _ => (N, K)
  let inp : Input String AnyW Float :=
    { directed := dir, assort, ik, starts := rc.starts, ends := rc.ends, weights := rc.weights,
      r, maxIt, nConv, affinity := aff.toArray,
      priorU := ⟨N, K, 1, Array.replicate (N * K) prior⟩,
      priorV := ⟨vr, vc, 1, Array.replicate (vr * vc) prior⟩ }
  -- draws: generous upper bound on what r realizations can consume
  let nL := if rc.starts.length = 0 then 0 else rc.weights.length / rc.starts.length
  let perReal := nL * K * K + 2 * N * K
  let g := Mt19937.seed (UInt32.ofNat (seed % 4294967296).toNat)
  -- optional: scripted draws (returned cyclically) instead of the stream of the seed
  let c ← get
  let scripted ← (if c.pos < c.toks.size then flts else pure [])
  let sa := scripted.toArray
  let ds := if sa.size = 0 then g.draws (r * perReal) else #[]
  let d : Nat → Float := fun t => if sa.size = 0 then ds.getD t 0.0 else sa.getD (t % sa.size) 0.0
  -- scripted evaluations: the m-th evaluation of the whole call returns script[m]
  -- (evaluations happen at sweeps 0,10,20,… of each realization; realization i has at most
  --  ⌈maxIt/10⌉ of them, so a global counter needs the realization lengths: the harness and
  --  the model both index the script by (realization, evaluation-in-realization) instead)
  let perRealEvals := (maxIt + 9) / 10
  let scriptA := script.toArray
  let evalL : Bool → Nat → NetView → Nat → Nat → State Float → Float :=
    fun assort K nv i it s =>
      let m := i * perRealEvals + it / 10
      if m < scriptA.size then scriptA.getD m 0.0 else stateLik assort K nv s
  match factorizeWith inp d evalL with
  | .error e => pure [kv "err" (toString e.code)]
  | .ok o =>
    let mut out : Array String := #[kv "err" "0",
      kv "labels" (",".intercalate o.labels), kv "u" (tensF o.u),
      kv "v" (tensF o.v), kv "udims" s!"{o.u.R},{o.u.C}", kv "vdims" s!"{o.v.R},{o.v.C}",
      kv "aff" (showFs o.affinity.toList),
      kv "iters" (showNats o.report.iters),
      kv "reasons" (",".intercalate (o.report.reasons.map Reason.name)),
      kv "L2s" (showFs o.report.L2s), kv "seed" (toString seed),
      kv "adopted" (showNats (o.adopted.map fun b => if b then 1 else 0)),
      kv "nreal" (toString r), kv "maxL2" (showF (maxL2 o.report.L2s))]
    if tr ≥ 1 then
      -- per-realization starts, recomputed exactly as `runAll` does
      let net := build dir rc.starts rc.ends rc.weights
      let nv := net.view
      let userW : Tens Float := Tens.ofData K (if assort then 1 else K) nL aff.toArray
      let mut pos := 0
      for i in [0:r] do
        let st := realizationStart assort ik K N nv userW (fun t => d (pos + t))
        out := out.push (kv s!"s{i}.u" (tensF st.1.u))
        out := out.push (kv s!"s{i}.v" (if dir then tensF st.1.v else tensF st.1.u))
        out := out.push (kv s!"s{i}.w" (tensF st.1.w))
        if tr ≥ 2 then
          -- iterate `loopStep` by hand to expose every sweep (same function `runLoop` iterates)
          let mut s := st.1
          let mut c : Ctl Float := ctlInit
          let mut fuel := maxIt
          let mut go := true
          while go && fuel > 0 do
            let x := loopStep assort K nv maxIt nConv (evalL assort K nv i) s c
            s := x.1; c := x.2.1; fuel := fuel - 1
            out := out.push (kv s!"t{i}.{c.iteration}.u" (tensF s.u))
            out := out.push (kv s!"t{i}.{c.iteration}.v" (if dir then tensF s.v else tensF s.u))
            out := out.push (kv s!"t{i}.{c.iteration}.w" (tensF s.w))
            out := out.push (kv s!"t{i}.{c.iteration}.c" s!"{showF c.L2},{c.coincide},{x.2.2.code}")
            if x.2.2 ≠ Reason.noTermination then go := false
        pos := pos + st.2
    pure out.toList

/-- `validate dir assort init nstart nend nweights naff ndistinct usize r maxit nconv` -/
def opValidate : P (List String) := do
  let _dir ← bool
  let assort ← bool
  let _init ← tok
  let nStarts ← nat; let nEnds ← nat; let nWeights ← nat; let nAffinity ← nat
  let nDistinct ← nat; let uSize ← nat; let r ← nat; let maxIt ← nat; let nConv ← nat
  -- optional: the out-membership container was moved from (its values are gone: it holds 0 elements, whatever its dimensions say)
  let moved ← optNat 0
  let uSize := if moved = 1 then 0 else uSize
  match validate { assort, nStarts, nEnds, nWeights, nAffinity, nDistinct, uSize, r, maxIt, nConv } with
  | .ok _ => pure [kv "err" "0"]
  | .error e => pure [kv "err" (toString e.code)]

/-- `rng seed n` — first n uniform draws -/
def opRng : P (List String) := do
  let seed ← int; let n ← nat
  let g := Mt19937.seed (UInt32.ofNat (seed % 4294967296).toNat)
  pure [kv "d" (showFs (g.draws n).toList)]

/-- `initf kind assort K L ncalls <draws> <list>` — the initialiser functors on a scripted stream of draws (cyclic),
called `ncalls` times in a row on the same generator (kind r: random symmetric start; f: caller's tensor plus noise,
`list` = the caller's tensor; m: rows of a membership matrix, `L` = number of rows, `list` = the row indices) -/
def opInitf : P (List String) := do
  let kind ← tok
  let assort ← bool
  let K ← nat; let L ← nat; let ncalls ← nat
  let ds ← flts
  let d : Nat → Float := fun t => ds.toArray.getD (t % ds.length) 0.0
  let mut pos := 0
  let mut out : List String := []
  if kind = "m" then
    let els ← (do let n ← nat; many n nat)
    let mut prev : Tens Float := Tens.zeros L K 1
    for i in [0:ncalls] do
      let p0 := pos
      let pv := prev
      let r := initRows L K els (fun j k => pv.get j k 0) (fun t => d (p0 + t))
      prev := r.1
      pos := pos + r.2
      out := out ++ [kv s!"t{i}" (showFs r.1.data.toList), kv s!"pos{i}" (toString pos)]
  else
    let aff ← flts
    let userW : Tens Float := Tens.ofData K (if assort then 1 else K) L aff.toArray
    for i in [0:ncalls] do
      let p0 := pos
      let r := if kind = "r" then initAffRandom assort K L (fun t => d (p0 + t))
               else initAffFromInitial assort userW (fun t => d (p0 + t))
      pos := pos + r.2
      out := out ++ [kv s!"t{i}" (showFs r.1.data.toList), kv s!"pos{i}" (toString pos)]
  pure out

def runLine (line : String) : String :=
  let toks := (line.trimAscii.toString.splitOn " ").filter (· ≠ "") |>.toArray
  if toks.size < 2 then "" else
  let id := toks[0]!
  let op := toks[1]!
  let p : P (List String) := match op with
    | "idx" => opIdx
    | "idxr" => opIdxr
    | "net" => opNet
    | "sweep" => opSweep
    | "run" => opRun
    | "validate" => opValidate
    | "rng" => opRng
    | "initf" => opInitf
    | "readadj" => Cli.opReadAdj
    | "readaff" => Cli.opReadAff
    | "waff" => Cli.opWaff
    | "wmem" => Cli.opWmem
    | "winfo" => Cli.opWinfo
    | "cli" => Cli.opCli
    | "clirun" => Cli.opCliRun
    | _ => throw s!"unknown op {op}"
  match p.run { toks, pos := 2 } with
  | .ok (fields, _) => id ++ " " ++ " ".intercalate fields
  | .error e => id ++ " modelerror=" ++ e.replace " " "_"

partial def loop (h : IO.FS.Stream) (out : IO.FS.Stream) : IO Unit := do
  let line ← h.getLine
  if line.isEmpty then return ()
  let r := runLine line
  if !r.isEmpty then out.putStrLn r
  loop h out

def main : IO Unit := do
  let stdin ← IO.getStdin
  let stdout ← IO.getStdout
  loop stdin stdout
  stdout.flush
