import Mathlib.Analysis.Convex.Jensen
import Mathlib.Analysis.SpecialFunctions.Log.Basic
import Mathlib.Analysis.Convex.SpecificFunctions.Basic
import Mathlib.Tactic

/-
Feasibility evidence for /verif/DESIGN.md (design phase).  NOT part of the framework.
Part 1 (namespace MM): abstract masked MM/Jensen ascent lemma.
Part 2 (namespace C01): its instantiation on the paper-form, masked out-membership
update of the directed general model: `C01.uStep_ascent`.
Checks with `lean UStepAscent_prototype.lean`; expected axioms: propext, Classical.choice, Quot.sound.
-/
open Finset Real
set_option linter.unusedSectionVars false

namespace MM
variable {P E : Type} [Fintype P] [Fintype E] [DecidableEq P]

def S (c : E → P → ℝ) (x : P → ℝ) (e : E) : ℝ := ∑ p, x p * c e p

noncomputable def F (a : E → ℝ) (c : E → P → ℝ) (d : P → ℝ) (x : P → ℝ) : ℝ :=
  ∑ e, a e * Real.log (S c x e) - ∑ p, x p * d p

noncomputable def upd (a : E → ℝ) (c : E → P → ℝ) (d : P → ℝ) (m : P → Prop) [DecidablePred m]
    (x : P → ℝ) (p : P) : ℝ :=
  if m p then x p / d p * ∑ e, a e * c e p / S c x e else x p

lemma key_scalar {x y : ℝ} (hx : 0 < x) (hy : 0 ≤ y) : y - x ≤ y * Real.log (y / x) := by
  rcases hy.eq_or_lt with rfl | hy
  · simp; exact hx.le
  · have h := Real.log_le_sub_one_of_pos (div_pos hx hy)
    have : Real.log (y / x) = - Real.log (x / y) := by
      rw [Real.log_div hy.ne' hx.ne', Real.log_div hx.ne' hy.ne']; ring
    rw [this]
    have h2 : y * (x / y - 1) = x - y := by field_simp
    nlinarith [mul_le_mul_of_nonneg_left h hy.le]

section
variable (a : E → ℝ) (c : E → P → ℝ) (d : P → ℝ) (m : P → Prop) [DecidablePred m] (x : P → ℝ)
variable (ha : ∀ e, 0 ≤ a e) (hc : ∀ e p, 0 ≤ c e p) (hx : ∀ p, 0 ≤ x p)
variable (hd : ∀ p, m p → 0 < d p) (hS : ∀ e, 0 < a e → 0 < S c x e)

include ha hc hx in
lemma S_nonneg (e : E) : 0 ≤ S c x e := sum_nonneg fun p _ => mul_nonneg (hx p) (hc e p)

include ha hc hx in
lemma inner_nonneg (p : P) : 0 ≤ ∑ e, a e * c e p / S c x e :=
  sum_nonneg fun e _ => div_nonneg (mul_nonneg (ha e) (hc e p)) (S_nonneg a c x ha hc hx e)

include ha hc hx hd in
lemma upd_nonneg (p : P) : 0 ≤ upd a c d m x p := by
  unfold upd; split_ifs with h
  · exact mul_nonneg (div_nonneg (hx p) (hd p h).le) (inner_nonneg a c x ha hc hx p)
  · exact hx p

lemma upd_zero (p : P) (h : x p = 0) : upd a c d m x p = 0 := by
  unfold upd; split_ifs <;> simp [h]

include ha hc hx hd hS in
lemma upd_pos (e : E) (p : P) (hae : 0 < a e) (hxp : 0 < x p) (hcp : 0 < c e p) :
    0 < upd a c d m x p := by
  unfold upd; split_ifs with h
  · apply mul_pos (div_pos hxp (hd p h))
    have h1 : 0 < a e * c e p / S c x e := div_pos (mul_pos hae hcp) (hS e hae)
    have h2 : a e * c e p / S c x e ≤ ∑ e, a e * c e p / S c x e :=
      single_le_sum (f := fun e => a e * c e p / S c x e)
        (fun e _ => div_nonneg (mul_nonneg (ha e) (hc e p)) (S_nonneg a c x ha hc hx e)) (mem_univ e)
    linarith
  · exact hxp

include ha hc hx hd hS in
/-- Jensen step for one observed edge. -/
lemma edge_bound (e : E) (hae : 0 < a e) :
    0 < S c (upd a c d m x) e ∧
    ∑ p, x p * c e p / S c x e * Real.log (upd a c d m x p / x p)
      ≤ Real.log (S c (upd a c d m x) e) - Real.log (S c x e) := by
  set x' := upd a c d m x with hx'
  set s := S c x e with hs
  have hspos : 0 < s := hS e hae
  set ρ : P → ℝ := fun p => x p * c e p / s with hρ
  have hρ0 : ∀ p, 0 ≤ ρ p := fun p => div_nonneg (mul_nonneg (hx p) (hc e p)) hspos.le
  set T := univ.filter (fun p => 0 < ρ p) with hT
  have hTpos : ∀ p ∈ T, 0 < x p ∧ 0 < c e p := by
    intro p hp
    have h0 : 0 < ρ p := (mem_filter.mp hp).2
    have h1 : 0 < x p * c e p := by
      have := mul_pos h0 hspos; simpa [hρ, div_mul_cancel₀ _ hspos.ne'] using this
    rcases (hx p).eq_or_lt with h | h
    · simp [← h] at h1
    · exact ⟨h, by
        rcases (hc e p).eq_or_lt with h' | h'
        · simp [← h'] at h1
        · exact h'⟩
  have hnotT : ∀ p, p ∉ T → ρ p = 0 := by
    intro p hp
    have : ¬ 0 < ρ p := fun h => hp (mem_filter.mpr ⟨mem_univ _, h⟩)
    exact le_antisymm (not_lt.mp this) (hρ0 p)
  have hsum1 : ∑ p ∈ T, ρ p = 1 := by
    have : ∑ p ∈ T, ρ p = ∑ p, ρ p := by
      apply sum_subset (subset_univ _); intro p _ hp; exact hnotT p hp
    rw [this]; simp only [hρ, ← sum_div]; exact div_self hspos.ne'
  have htpos : ∀ p ∈ T, x' p / x p ∈ Set.Ioi (0:ℝ) := by
    intro p hp
    obtain ⟨h1, h2⟩ := hTpos p hp
    exact div_pos (upd_pos a c d m x ha hc hx hd hS e p hae h1 h2) h1
  have hJ := (strictConcaveOn_log_Ioi.concaveOn).le_map_sum (t := T) (w := ρ)
    (p := fun p => x' p / x p) (fun p _ => hρ0 p) hsum1 htpos
  simp only [smul_eq_mul] at hJ
  have hS' : ∑ p ∈ T, ρ p * (x' p / x p) = S c x' e / s := by
    have h1 : ∀ p ∈ T, ρ p * (x' p / x p) = x' p * c e p / s := by
      intro p hp
      obtain ⟨h1, _⟩ := hTpos p hp
      simp only [hρ]; field_simp
    rw [sum_congr rfl h1]
    have h2 : ∑ p ∈ T, x' p * c e p / s = ∑ p, x' p * c e p / s := by
      apply sum_subset (subset_univ _); intro p _ hp
      have h0 := hnotT p hp
      simp only [hρ] at h0
      have h3 : x p * c e p = 0 := by
        have := congrArg (· * s) h0; simpa [div_mul_cancel₀ _ hspos.ne'] using this
      rcases mul_eq_zero.mp h3 with h | h
      · simp [hx', upd_zero a c d m x p h]
      · simp [h]
    rw [h2, ← sum_div]; rfl
  have hTne : T.Nonempty := by
    by_contra h; rw [not_nonempty_iff_eq_empty] at h; rw [h] at hsum1; simp at hsum1
  have hS'pos : 0 < S c x' e := by
    obtain ⟨p, hp⟩ := hTne
    obtain ⟨h1, h2⟩ := hTpos p hp
    have h3 := upd_pos a c d m x ha hc hx hd hS e p hae h1 h2
    have h4 : x' p * c e p ≤ S c x' e :=
      single_le_sum (f := fun p => x' p * c e p)
        (fun p _ => mul_nonneg (upd_nonneg a c d m x ha hc hx hd p) (hc e p)) (mem_univ p)
    have := mul_pos h3 h2
    linarith
  refine ⟨hS'pos, ?_⟩
  rw [hS', Real.log_div hS'pos.ne' hspos.ne'] at hJ
  have : ∑ p, x p * c e p / s * Real.log (x' p / x p) = ∑ p ∈ T, ρ p * Real.log (x' p / x p) := by
    symm; apply sum_subset (subset_univ _); intro p _ hp
    have := hnotT p hp; simp only [hρ] at this; simp [hρ, this]
  rw [this]; exact hJ

include ha hc hx hd hS in
theorem ascent : F a c d x ≤ F a c d (upd a c d m x) := by
  set x' := upd a c d m x with hx'
  -- per-edge bounds, weighted
  have h1 : ∑ e, a e * (∑ p, x p * c e p / S c x e * Real.log (x' p / x p))
      ≤ ∑ e, a e * (Real.log (S c x' e) - Real.log (S c x e)) := by
    apply sum_le_sum; intro e _
    rcases (ha e).eq_or_lt with h | h
    · simp [← h]
    · exact mul_le_mul_of_nonneg_left (edge_bound a c d m x ha hc hx hd hS e h).2 h.le
  -- swap sums
  have h2 : ∑ e, a e * (∑ p, x p * c e p / S c x e * Real.log (x' p / x p))
      = ∑ p, Real.log (x' p / x p) * (x p * ∑ e, a e * c e p / S c x e) := by
    simp only [mul_sum]; rw [sum_comm]
    apply sum_congr rfl; intro p _; apply sum_congr rfl; intro e _; ring
  -- pointwise lower bound
  have h3 : ∀ p, (x' p - x p) * d p ≤ Real.log (x' p / x p) * (x p * ∑ e, a e * c e p / S c x e) := by
    intro p
    by_cases hm : m p
    · rcases (hx p).eq_or_lt with h0 | hpos
      · have : x' p = 0 := upd_zero a c d m x p h0.symm
        simp [this, ← h0]
      · have hdp := hd p hm
        have hx'p : x' p * d p = x p * ∑ e, a e * c e p / S c x e := by
          simp only [hx', upd, if_pos hm]; field_simp
        rw [← hx'p]
        have := key_scalar hpos (upd_nonneg a c d m x ha hc hx hd p)
        nlinarith [mul_le_mul_of_nonneg_right this hdp.le]
    · have : x' p = x p := by simp [hx', upd, hm]
      rw [this]
      rcases (hx p).eq_or_lt with h0 | hpos
      · simp [← h0]
      · simp [div_self hpos.ne']
  have h4 : ∑ p, (x' p - x p) * d p ≤ ∑ e, a e * (Real.log (S c x' e) - Real.log (S c x e)) := by
    calc ∑ p, (x' p - x p) * d p ≤ ∑ p, Real.log (x' p / x p) * (x p * ∑ e, a e * c e p / S c x e) :=
          sum_le_sum fun p _ => h3 p
      _ = _ := h2.symm
      _ ≤ _ := h1
  unfold F
  have e1 : ∑ e, a e * (Real.log (S c x' e) - Real.log (S c x e))
      = ∑ e, a e * Real.log (S c x' e) - ∑ e, a e * Real.log (S c x e) := by
    simp only [mul_sub, sum_sub_distrib]
  have e2 : ∑ p, (x' p - x p) * d p = ∑ p, x' p * d p - ∑ p, x p * d p := by
    simp only [sub_mul, sum_sub_distrib]
  rw [e1, e2] at h4
  linarith

end
end MM


set_option linter.unusedSectionVars false

namespace C01
variable {V G Lr : Type} [Fintype V] [Fintype G] [Fintype Lr] [DecidableEq V] [DecidableEq G] [DecidableEq Lr]
variable (u v : V → G → ℝ) (w : G → G → Lr → ℝ) (A : Lr → V → V → ℕ)

def Mr (a : Lr) (i j : V) : ℝ := ∑ k, ∑ q, u i k * v j q * w k q a
def Z (k : G) : ℝ := ∑ q, (∑ a, w k q a) * (∑ j, v j q)

noncomputable def LL : ℝ := ∑ a, ∑ i, ∑ j, ((A a i j : ℝ) * Real.log (Mr u v w a i j) - Mr u v w a i j)

/-- paper-form masked u-update (no snap; guards are in the mask and in the hypotheses) -/
noncomputable def uStep (m : V → G → Prop) [∀ i k, Decidable (m i k)] (i : V) (k : G) : ℝ :=
  if m i k then u i k / Z v w k * ∑ a, ∑ j, (A a i j : ℝ) * ((∑ q, v j q * w k q a) / Mr u v w a i j)
  else u i k

-- MM instance
def cE (e : Lr × V × V) (p : V × G) : ℝ := if p.1 = e.2.1 then ∑ q, v e.2.2 q * w p.2 q e.1 else 0
def xP (p : V × G) : ℝ := u p.1 p.2
def aE (e : Lr × V × V) : ℝ := (A e.1 e.2.1 e.2.2 : ℝ)
def dP (p : V × G) : ℝ := Z v w p.2

lemma S_eq (e : Lr × V × V) : MM.S (cE v w) (xP u) e = Mr u v w e.1 e.2.1 e.2.2 := by
  obtain ⟨a, i, j⟩ := e
  simp only [MM.S, cE, xP, Mr, Fintype.sum_prod_type]
  simp only [mul_ite, mul_zero]
  rw [sum_comm]
  apply sum_congr rfl; intro k _
  rw [sum_ite_eq' univ i]; simp only [mem_univ, if_true]
  rw [mul_sum]; apply sum_congr rfl; intro q _; ring

lemma pen_eq : ∑ p, xP u p * dP v w p = ∑ a, ∑ i, ∑ j, Mr u v w a i j := by
  simp only [xP, dP, Z, Mr, Fintype.sum_prod_type]
  -- LHS: Σ_i Σ_k u i k * Σ_q (Σ_a w k q a) * (Σ_j v j q)
  symm
  calc ∑ a, ∑ i, ∑ j, ∑ k, ∑ q, u i k * v j q * w k q a
      = ∑ i, ∑ a, ∑ j, ∑ k, ∑ q, u i k * v j q * w k q a := sum_comm
    _ = ∑ i, ∑ k, ∑ q, ∑ a, ∑ j, u i k * v j q * w k q a := by
        apply sum_congr rfl; intro i _
        calc ∑ a, ∑ j, ∑ k, ∑ q, u i k * v j q * w k q a
            = ∑ a, ∑ k, ∑ j, ∑ q, u i k * v j q * w k q a := sum_congr rfl fun a _ => sum_comm
          _ = ∑ k, ∑ a, ∑ j, ∑ q, u i k * v j q * w k q a := sum_comm
          _ = ∑ k, ∑ a, ∑ q, ∑ j, u i k * v j q * w k q a :=
              sum_congr rfl fun k _ => sum_congr rfl fun a _ => sum_comm
          _ = ∑ k, ∑ q, ∑ a, ∑ j, u i k * v j q * w k q a := sum_congr rfl fun k _ => sum_comm
    _ = _ := by
        apply sum_congr rfl; intro i _; apply sum_congr rfl; intro k _
        rw [mul_sum]; apply sum_congr rfl; intro q _
        rw [sum_mul_sum, mul_sum]; apply sum_congr rfl; intro a _
        rw [mul_sum]; apply sum_congr rfl; intro j _; ring

lemma F_eq (x : V → G → ℝ) :
    MM.F (aE A) (cE v w) (dP v w) (xP x) = LL x v w A := by
  unfold MM.F LL
  rw [pen_eq]
  simp only [Fintype.sum_prod_type, S_eq, aE]
  simp only [sum_sub_distrib]

lemma upd_eq (m : V → G → Prop) [∀ i k, Decidable (m i k)] (p : V × G) :
    MM.upd (aE A) (cE v w) (dP v w) (fun p => m p.1 p.2) (xP u) p = uStep u v w A m p.1 p.2 := by
  obtain ⟨i, k⟩ := p
  simp only [MM.upd, uStep, xP, dP]
  split_ifs with h
  · congr 1
    simp only [Fintype.sum_prod_type, S_eq, aE, cE]
    apply sum_congr rfl; intro a _
    -- Σ_{i'} Σ_j A a i' j * (if i = i' then .. else 0) / Mr a i' j
    rw [sum_eq_single i]
    · apply sum_congr rfl; intro j _; simp [mul_div_assoc]
    · intro i' _ hne; apply sum_eq_zero; intro j _; simp [Ne.symm hne]
    · intro h; exact absurd (mem_univ i) h
  · rfl

theorem uStep_ascent (m : V → G → Prop) [∀ i k, Decidable (m i k)]
    (hu : ∀ i k, 0 ≤ u i k) (hv : ∀ j q, 0 ≤ v j q) (hw : ∀ k q a, 0 ≤ w k q a)
    (hZ : ∀ i k, m i k → 0 < Z v w k)
    (hR : ∀ a i j, 0 < A a i j → 0 < Mr u v w a i j) :
    LL u v w A ≤ LL (uStep u v w A m) v w A := by
  have h := MM.ascent (aE A) (cE v w) (dP v w) (fun p : V × G => m p.1 p.2) (xP u)
    (fun e => by simp [aE])
    (fun e p => by
      simp only [cE]; split_ifs
      · exact sum_nonneg fun q _ => mul_nonneg (hv _ _) (hw _ _ _)
      · exact le_rfl)
    (fun p => hu _ _)
    (fun p hp => hZ p.1 p.2 hp)
    (fun e he => by
      rw [S_eq]; apply hR; simpa [aE] using he)
  rw [F_eq] at h
  have h2 : MM.upd (aE A) (cE v w) (dP v w) (fun p : V × G => m p.1 p.2) (xP u)
      = xP (uStep u v w A m) := by
    funext p; rw [upd_eq]; rfl
  rw [h2, F_eq] at h
  exact h

end C01
#print axioms C01.uStep_ascent
