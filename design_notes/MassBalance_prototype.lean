import Mathlib.Algebra.BigOperators.Field
import Mathlib.Data.Real.Basic
import Mathlib.Tactic

/-
Feasibility evidence for /verif/DESIGN.md (design phase).  NOT part of the framework:
the framework re-states this over the model's own definitions.  Checks with
  lean MassBalance_prototype.lean
against the pre-installed Mathlib; expected axioms: propext, Classical.choice, Quot.sound.
-/
open Finset

namespace MB

lemma sum4_swap {α β : Type} [Fintype α] [Fintype β] (f : α → α → β → β → ℝ) :
    ∑ i, ∑ j, ∑ k, ∑ q, f i j k q = ∑ k, ∑ q, ∑ i, ∑ j, f i j k q := by
  calc ∑ i, ∑ j, ∑ k, ∑ q, f i j k q
      = ∑ i, ∑ k, ∑ j, ∑ q, f i j k q := sum_congr rfl fun i _ => sum_comm
    _ = ∑ k, ∑ i, ∑ j, ∑ q, f i j k q := sum_comm
    _ = ∑ k, ∑ i, ∑ q, ∑ j, f i j k q := sum_congr rfl fun k _ => sum_congr rfl fun i _ => sum_comm
    _ = ∑ k, ∑ q, ∑ i, ∑ j, f i j k q := sum_congr rfl fun k _ => sum_comm
variable {V G : Type} [Fintype V] [Fintype G] [DecidableEq V] [DecidableEq G]
variable (ε : ℝ) (u v : V → G → ℝ) (w : G → G → ℝ) (A : V → V → ℕ)

def Du (k : G) : ℝ := ∑ i, u i k
def Dv (q : G) : ℝ := ∑ j, v j q
def M (i j : V) : ℝ := ∑ k, ∑ q, u i k * v j q * w k q

noncomputable def raw (k q : G) : ℝ :=
  w k q / (Du u k * Dv v q) *
    ∑ i, ∑ j, (A i j : ℝ) * (if ε < M u v w i j then u i k * v j q / M u v w i j else 0)

noncomputable def snap (x : ℝ) : ℝ := if |x| < ε then 0 else x

noncomputable def w' (k q : G) : ℝ :=
  if ε < Du u k * Dv v q ∧ ε < w k q then snap ε (raw ε u v w A k q) else w k q

noncomputable def snappedMass : ℝ :=
  ∑ k, ∑ q, if ε < Du u k * Dv v q ∧ ε < w k q ∧ |raw ε u v w A k q| < ε
    then Du u k * Dv v q * raw ε u v w A k q else 0

lemma sum_M (w : G → G → ℝ) : ∑ i, ∑ j, M u v w i j = ∑ k, ∑ q, w k q * (Du u k * Dv v q) := by
  unfold M Du Dv
  calc ∑ i, ∑ j, ∑ k, ∑ q, u i k * v j q * w k q
      = ∑ k, ∑ q, ∑ i, ∑ j, u i k * v j q * w k q := sum4_swap (fun i j k q => u i k * v j q * w k q)
    _ = _ := by
        apply sum_congr rfl; intro k _; apply sum_congr rfl; intro q _
        rw [sum_mul_sum, mul_sum]
        apply sum_congr rfl; intro i _
        rw [mul_sum]; apply sum_congr rfl; intro j _; ring

theorem mass_balance (hε : 0 < ε)
    (hRates : ∀ i j, 0 < A i j → ε < M u v w i j)
    (hW : ∀ k q, w k q = 0 ∨ ε < w k q)
    (hZ : ∀ k q, 0 < w k q → ε < Du u k * Dv v q) :
    (∑ i, ∑ j, M u v (w' ε u v w A) i j) + snappedMass ε u v w A = ∑ i, ∑ j, (A i j : ℝ) := by
  rw [sum_M, snappedMass, ← sum_add_distrib]
  simp_rw [← sum_add_distrib]
  -- per (k,q) identity
  have key : ∀ k q,
      w' ε u v w A k q * (Du u k * Dv v q) +
        (if ε < Du u k * Dv v q ∧ ε < w k q ∧ |raw ε u v w A k q| < ε
          then Du u k * Dv v q * raw ε u v w A k q else 0)
      = ∑ i, ∑ j, (A i j : ℝ) * (u i k * v j q * w k q / M u v w i j) := by
    intro k q
    rcases hW k q with h0 | hpos
    · have hn : ¬ ε < w k q := by rw [h0]; exact not_lt.mpr hε.le
      simp [w', h0, not_lt.mpr hε.le]
    · have hZ' := hZ k q (lt_trans hε hpos)
      have hZne : Du u k * Dv v q ≠ 0 := (lt_trans hε hZ').ne'
      have hraw : raw ε u v w A k q * (Du u k * Dv v q)
          = ∑ i, ∑ j, (A i j : ℝ) * (u i k * v j q * w k q / M u v w i j) := by
        unfold raw
        rw [mul_assoc, mul_comm (∑ i, ∑ j, _) _, ← mul_assoc, div_mul_cancel₀ _ hZne]
        rw [mul_sum]; apply sum_congr rfl; intro i _
        rw [mul_sum]; apply sum_congr rfl; intro j _
        rcases Nat.eq_zero_or_pos (A i j) with hA | hA
        · simp [hA]
        · rw [if_pos (hRates i j hA)]; ring
      by_cases hs : |raw ε u v w A k q| < ε
      · simp only [w', hZ', hpos, and_self, if_true, snap, hs, true_and]
        rw [← hraw]; ring
      · simp only [w', hZ', hpos, and_self, if_true, snap, hs, and_false, if_false]
        rw [← hraw]; ring
  simp_rw [key]
  -- swap and use Σ_kq u v w / M = 1 on observed pairs
  calc ∑ k, ∑ q, ∑ i, ∑ j, (A i j : ℝ) * (u i k * v j q * w k q / M u v w i j)
      = ∑ i, ∑ j, ∑ k, ∑ q, (A i j : ℝ) * (u i k * v j q * w k q / M u v w i j) :=
        (sum4_swap (fun i j k q => (A i j : ℝ) * (u i k * v j q * w k q / M u v w i j))).symm
    _ = ∑ i, ∑ j, (A i j : ℝ) := by
        apply sum_congr rfl; intro i _; apply sum_congr rfl; intro j _
        rcases Nat.eq_zero_or_pos (A i j) with hA | hA
        · simp [hA]
        · have hM : M u v w i j ≠ 0 := (lt_trans hε (hRates i j hA)).ne'
          simp_rw [← mul_sum, ← sum_div]
          have : ∑ k, ∑ q, u i k * v j q * w k q = M u v w i j := rfl
          rw [this, div_self hM, mul_one]

end MB
#print axioms MB.mass_balance
